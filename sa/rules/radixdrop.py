"""RADIXDROP / POW2: radix-generic code does not fall back to qubits.

`UnitaryMatrix(M)` and `StateVector(v)` without radixes *guess* them from the
dimension (a power of two means qubits, a power of three qutrits, anything
else raises).  Inside an object that knows its radixes that guess is a
defect: `Circuit(2, [4, 2]).get_statevector([1, 0, ...])` silently computed
with qubit radixes, `ArbitraryCPhaseGate((4, 4)).get_unitary()` returned a
(2, 2, 2, 2) unitary, a (2, 3) unitary could not measure its distance from
a raw array.

RADIXDROP  In a method of a radix-bearing class (Circuit, UnitaryMatrix,
           StateVector, UnitaryBuilder, or any class whose constructor takes
           `radixes`), a call `UnitaryMatrix(x)` / `StateVector(x)` that
           passes no radixes is accepted only when
             - `x` is a method parameter and the call is reached under an
               `isinstance(x, <that class>)` test (a copy, radixes kept), or
             - the class is not constructed with radixes and `x` is not a
               parameter (a fixed-radix gate wrapping its own matrix), or
             - the method is a static / class method (no radixes to give).
POW2       The radix-generic classes never size a tensor with `2 ** n`.
"""
from __future__ import annotations

import ast

from ..engine import Ctx
from ..report import Report
from ..source import AnalysisError
from ..source import norm
from . import valnum

BEARING = {'Circuit', 'UnitaryMatrix', 'StateVector', 'UnitaryBuilder'}
WRAPPERS = {'UnitaryMatrix', 'StateVector'}

_POS = '''
class G:
    def __init__(self, radixes):
        self._radixes = tuple(radixes)

    def get_unitary(self, params=[]):
        U = np.identity(self.dim)
        return UnitaryMatrix(U)
'''

_POS2 = '''
def calc(self, location):
    return np.reshape(self.tensor, (2 ** len(location), 2 ** len(location)))
'''


def _ctor_radixes(cnode: ast.ClassDef) -> bool:
    for m in cnode.body:
        if isinstance(m, ast.FunctionDef) and m.name == '__init__':
            names = [a.arg for a in m.args.args + m.args.kwonlyargs]
            return any(n in ('radixes', 'radix') for n in names)
    return False


def _bare_wraps(fn: ast.AST) -> list[ast.Call]:
    out = []
    for k in ast.walk(fn):
        if isinstance(k, ast.Call) and isinstance(k.func, ast.Name) and (
                k.func.id in WRAPPERS) and k.args:
            if len(k.args) >= 2 or any(
                    kw.arg == 'radixes' for kw in k.keywords):
                continue
            out.append(k)
    return out


def _pow2(fn: ast.AST) -> list[ast.BinOp]:
    return [
        b for b in ast.walk(fn)
        if isinstance(b, ast.BinOp) and isinstance(b.op, ast.Pow)
        and isinstance(b.left, ast.Constant) and b.left.value == 2
        and not isinstance(b.right, ast.Constant)
    ]


def rule_radixdrop(ctx: Ctx, rep: Report, prefixes: tuple[str, ...],
                   floor: int) -> None:
    R = 'RADIXDROP'
    pos = ast.parse(_POS).body[0]
    if not _ctor_radixes(pos) or len(_bare_wraps(pos)) != 1:
        raise AnalysisError('RADIXDROP no longer matches its positive example')
    n = 0
    for c in ctx.index.classes.values():
        if not c.path.startswith(prefixes):
            continue
        ctor = _ctor_radixes(c.node)
        if not (c.name in BEARING or ctor):
            continue
        for f in c.methods.values():
            decos = {norm(d) for d in f.node.decorator_list}
            if decos & {'staticmethod', 'classmethod'} or f.name in (
                    '__init__', '__new__'):
                continue
            calls = [
                k for k in ast.walk(f.node)
                if isinstance(k, ast.Call) and isinstance(k.func, ast.Name)
                and k.func.id in WRAPPERS and k.args
            ]
            if not calls:
                continue
            bare = {id(k) for k in _bare_wraps(f.node)}
            g = ctx.cfg(f)
            for k in calls:
                n += 1
                rep.count()
                rep.seen(f.qualname)
                ok = True
                why = 'radixes are passed'
                if id(k) in bare:
                    x = k.args[0]
                    is_param = isinstance(x, ast.Name) and x.id in f.params
                    if is_param:
                        node = g.node_containing(k)
                        gt = ' ; '.join(
                            valnum.guards_text(g, node)) if node else ''
                        ok = f'isinstance({x.id}, {k.func.id})' in gt and (
                            f'not (isinstance({x.id}, {k.func.id}' not in gt)
                        why = 'a copy under an isinstance test'
                    elif isinstance(x, ast.Name) and x.id in {
                        t.id for comp in ast.walk(f.node)
                        if isinstance(comp, ast.comprehension)
                        for t in ast.walk(comp.target)
                        if isinstance(t, ast.Name)
                    }:
                        # one of several foreign operands (otimes): their
                        # dimensions are their own, there is nothing to pass
                        ok = True
                        why = 'a foreign operand of independent dimension'
                    else:
                        ok = not ctor and c.name not in BEARING
                        why = 'a fixed-radix class wrapping its own matrix'
                rep.check(
                    ok, R, f'{c.name}.{f.name}', f.path, k.lineno,
                    f'`{norm(k)[:60]}`: {why}',
                    f'{c.name}.{f.name} wraps `{norm(k.args[0])[:40]}` with '
                    f'`{k.func.id}(...)` and passes no radixes although '
                    f'{c.name} knows its own: the radixes are guessed from '
                    'the dimension (qubits for a power of two, an error for '
                    '6, 12, ...), so mixed- or higher-radix objects compute '
                    'with the wrong radixes or raise',
                    key=norm(k)[:60],
                )
    rep.floor(R, n, floor, 'UnitaryMatrix/StateVector constructions inside '
              'radix-bearing classes')


def rule_pow2(ctx: Ctx, rep: Report, paths: tuple[str, ...]) -> None:
    R = 'POW2'
    if len(_pow2(ast.parse(_POS2))) != 2:
        raise AnalysisError('POW2 no longer matches its positive example')
    n = 0
    for f in ctx.index.all_functions():
        if not f.path.startswith(paths):
            continue
        n += 1
        bad = _pow2(f.node)
        for b in bad:
            rep.count()
            rep.fail(
                R, (f.cls.name + '.' if f.cls is not None else '') + f.name,
                f.path, b.lineno,
                f'`{norm(b)}` sizes a tensor as a power of two inside '
                f'radix-generic code ({f.qualname}): every non-qubit object '
                'fails or is mis-shaped there',
                key=norm(b),
            )
    rep.count()
    rep.ok(R, 'radix-generic modules', paths[0], 1,
           f'{n} functions in {", ".join(paths)}: no tensor is sized with 2 ** n')
    rep.floor(R, n, 100, 'functions in the radix-generic modules')
