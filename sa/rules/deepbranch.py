"""DEEP: the deep-copy branch of become() does not alias nested state.

`Circuit.become(other, deepcopy=True)` promises that the receiver shares
nothing mutable with `other` afterwards (the runtime ships circuits between
tasks and passes keep editing both).  For a field whose value is a container
*of containers* (annotation read from __init__: `list[list[...]]`,
`dict[..., tuple[_NodePtrs, _NodePtrs]]`, ...) a shallow `copy.copy` or a
plain assignment leaves the inner containers shared: an edit of one circuit
then rewires the other.  Under the true edge of the `deepcopy` flag every such
field must be assigned `copy.deepcopy(<src>.<field>)` (or a deep copy of the
whole source).  Flat containers of immutable values may be copied either
way and are not constrained here.
"""
from __future__ import annotations

import ast
import re

from ..engine import Ctx
from ..report import Report
from ..source import AnalysisError
from ..source import ClassInfo
from ..source import norm

RULE = 'DEEP'
CONTAINER = re.compile(
    r'\b(list|dict|set|List|Dict|Set|deque|defaultdict|_NodePtrs)\b')


def nested_fields(c: ClassInfo) -> dict[str, str]:
    init = c.methods.get('__init__')
    out: dict[str, str] = {}
    if init is None:
        return out
    for n in ast.walk(init.node):
        if isinstance(n, ast.AnnAssign) and isinstance(
                n.target, ast.Attribute) and norm(n.target.value) == 'self':
            a = norm(n.annotation)
            if len(CONTAINER.findall(a)) >= 2:
                out[n.target.attr] = a
    return out


def rule_deep_branch(
    ctx: Ctx, rep: Report, c: ClassInfo, method: str = 'become',
    flag: str = 'deepcopy', floor: int = 2,
) -> int:
    f = c.methods.get(method)
    if f is None:
        raise AnalysisError(f'{c.name}.{method} vanished')
    if flag not in f.params:
        raise AnalysisError(f'{c.name}.{method} has no `{flag}` parameter')
    src = [p for p in f.params if p not in ('self', flag)][0]
    g = ctx.cfg(f)
    rep.seen(f.qualname)
    fields = nested_fields(c)
    n = 0
    for field, ann in sorted(fields.items()):
        n += 1
        rep.count()
        sites = []
        for node in g.nodes:
            st = node.stmt
            if node.kind != 'stmt' or not isinstance(st, ast.Assign):
                continue
            if not any(norm(t) == f'self.{field}' for t in st.targets):
                continue
            gd = {(norm(t.stmt.test), lab) for t, lab in g.guards_of(node.id)
                  if t.kind == 'test'}
            if (flag, 'true') in gd or (f'not {flag}', 'false') in gd:
                sites.append(st)
        ok = bool(sites) and all(
            isinstance(st.value, ast.Call)
            and norm(st.value.func) in ('copy.deepcopy', 'deepcopy')
            and len(st.value.args) == 1
            and norm(st.value.args[0]) == f'{src}.{field}'
            for st in sites)
        how = '; '.join(f'`{norm(st)}`' for st in sites) or 'no assignment'
        rep.check(
            ok, RULE, f'{c.name}.{method}:{field}', f.path,
            sites[0].lineno if sites else f.lineno,
            f'`{field}` ({ann}) is deep-copied when `{flag}` is set',
            f'with `{flag}` set, the nested container `{field}` ({ann}) is '
            f'not taken over by copy.deepcopy({src}.{field}) ({how}): its '
            f'inner containers stay shared between the two objects and an '
            'edit of one rewires the other', key=field,
        )
    rep.floor(RULE, n, floor, f'nested container fields of {c.name}')
    return n
