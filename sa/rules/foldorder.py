"""Order-sensitive folds over per-qudit / per-index sequences.

KRONFOLD   The Kronecker product is not commutative and BQSKit orders tensor
           factors by qudit (first qudit = leftmost factor).  A fold of
           np.kron over a sequence must therefore keep the accumulator on the
           left: `reduce(np.kron, seq)` or, in a loop, `acc = np.kron(acc,
           item)`.  `np.kron(item, acc)` builds the factors in reverse qudit
           order - invisible for one factor or identical factors.

INSERTORD  `lst.insert(i, v)` inside a loop over the indices i puts every v
           at its final position only if the indices are visited in
           ascending order: the loop must iterate `sorted(...)` or
           `range(...)`.  Iterating a dict or set directly makes the result
           depend on insertion order, although two such containers compare
           equal.

Instances are discovered under the given path prefixes.
"""
from __future__ import annotations

import ast

from ..engine import Ctx
from ..report import Report
from ..source import norm

KRON = {'np.kron', 'numpy.kron', 'kron'}


def rule_kronfold(ctx: Ctx, rep: Report, prefixes: tuple[str, ...],
                  floor: int) -> int:
    R = 'KRONFOLD'
    n = 0
    for path, mod in sorted(ctx.index.by_path.items()):
        if not path.startswith(prefixes):
            continue
        for node in ast.walk(mod.tree):
            # reduce(np.kron, seq)
            if isinstance(node, ast.Call) and norm(node.func) in (
                    'reduce', 'functools.reduce') and node.args and norm(
                    node.args[0]) in KRON:
                n += 1
                rep.count()
                rep.ok(R, f'{path}:reduce', path, node.lineno,
                       'reduce(np.kron, seq) folds left to right')
                continue
            if not isinstance(node, (ast.For, ast.While)):
                continue
            for st in ast.walk(node):
                if not (isinstance(st, ast.Assign) and isinstance(
                        st.targets[0], ast.Name) and isinstance(
                        st.value, ast.Call) and norm(
                        st.value.func) in KRON and len(
                        st.value.args) == 2):
                    continue
                acc = st.targets[0].id
                a, b = st.value.args
                uses = [isinstance(x, ast.Name) and x.id == acc for x in (a, b)]
                if not any(uses):
                    continue  # not a fold
                n += 1
                rep.count()
                rep.check(
                    uses[0] and not uses[1], R,
                    f'{path}:{_fn_of(mod, st)}:{acc}', path, st.lineno,
                    f'`{norm(st)}` keeps the accumulator on the left',
                    f'`{norm(st)}` folds the Kronecker product with the '
                    'accumulator on the right: the factors end up in '
                    'reverse order (last qudit first), which only shows '
                    'with two or more different factors', key='order',
                )
    rep.floor(R, n, floor, f'Kronecker folds under {prefixes}')
    return n


def rule_insertord(ctx: Ctx, rep: Report, prefixes: tuple[str, ...],
                   floor: int) -> int:
    R = 'INSERTORD'
    n = 0
    for path, mod in sorted(ctx.index.by_path.items()):
        if not path.startswith(prefixes):
            continue
        for lp in ast.walk(mod.tree):
            if not isinstance(lp, ast.For):
                continue
            tv = {x.id for x in ast.walk(lp.target) if isinstance(
                x, ast.Name)}
            for c in ast.walk(lp):
                if not (isinstance(c, ast.Call) and isinstance(
                        c.func, ast.Attribute) and c.func.attr == 'insert'
                        and len(c.args) == 2 and isinstance(
                        c.func.value, ast.Name)):
                    continue
                iv = {x.id for x in ast.walk(c.args[0]) if isinstance(
                    x, ast.Name)}
                if not (iv & tv):
                    continue
                n += 1
                rep.count()
                it = lp.iter
                asc = isinstance(it, ast.Call) and (
                    (norm(it.func) == 'sorted' and not any(
                        k.arg == 'reverse' for k in it.keywords))
                    or (norm(it.func) == 'range' and len(it.args) <= 2))
                rep.check(
                    asc, R, f'{path}:{_fn_of(mod, lp)}:{norm(c.func.value)}',
                    path, lp.lineno,
                    f'indices for `{norm(c)}` are visited in ascending order',
                    f'`{norm(c)}` is executed for `{norm(lp.target)}` in '
                    f'`{norm(it)}`, which is not an ascending enumeration '
                    '(sorted(...) / range(...)): an element inserted at a '
                    'higher index first is shifted by every later insert '
                    'below it, so the result depends on the container\'s '
                    'order', key='ascending',
                )
    rep.floor(R, n, floor, f'index-insert loops under {prefixes}')
    return n


def _fn_of(mod, node: ast.AST) -> str:
    """Qualified name of the innermost function enclosing node."""
    best = ''
    best_span = None
    for f in ast.walk(mod.tree):
        if isinstance(f, (ast.FunctionDef, ast.AsyncFunctionDef)):
            lo, hi = f.lineno, getattr(f, 'end_lineno', f.lineno)
            if lo <= node.lineno <= hi and (
                    best_span is None or hi - lo < best_span):
                best, best_span = f.name, hi - lo
    return best or '<module>'
