"""Static analysis engine for the BQSKit property checks (see DESIGN.md)."""
