"""Obligations, findings, evidence and the exit protocol (DESIGN 1, 2.10)."""
from __future__ import annotations

import hashlib
import json
import os
import time
from typing import Any

from .source import AnalysisError
from .source import norm

VERIF = os.path.dirname(os.path.dirname(os.path.abspath(__file__)))
KNOWN_PATH = os.path.join(VERIF, 'known_findings.json')
EVID_DIR = os.path.join(VERIF, 'evidence')
REPLAY_DIR = os.path.join(EVID_DIR, 'replay')


class Obligation:
    __slots__ = ('rule', 'construct', 'file', 'line', 'ok', 'what', 'key',
                 'detail')

    def __init__(
        self, rule: str, construct: str, file: str, line: int, ok: bool,
        what: str, key: str, detail: str = '',
    ) -> None:
        self.rule = rule
        self.construct = construct
        self.file = file
        self.line = line
        self.ok = ok
        self.what = what
        self.key = key
        self.detail = detail

    def as_dict(self) -> dict[str, Any]:
        d = {
            'rule': self.rule, 'construct': self.construct,
            'at': f'{self.file}:{self.line}', 'ok': self.ok,
            'what': self.what, 'key': self.key,
        }
        if self.detail:
            d['detail'] = self.detail
        return d


class Report:
    def __init__(self, pid: str, tier: str) -> None:
        self.pid = pid
        self.tier = tier
        self.obligations: list[Obligation] = []
        self.observations: list[str] = []
        self.analysed: set[str] = set()      # functions / constructs read
        self.evaluations = 0                 # constructs examined
        self.rules: dict[str, dict[str, int]] = {}
        self.assumptions: list[str] = []
        self.explanation = ''
        self.extra: dict[str, Any] = {}
        self.floor_failures: list[str] = []
        self.t0 = time.time()

    # ---- recording -------------------------------------------------------
    def _rule(self, rule: str) -> dict[str, int]:
        return self.rules.setdefault(
            rule, {'instances': 0, 'discharged': 0, 'violations': 0},
        )

    def ok(
        self, rule: str, construct: str, file: str, line: int, what: str,
    ) -> None:
        r = self._rule(rule)
        r['instances'] += 1
        r['discharged'] += 1
        self.obligations.append(Obligation(
            rule, construct, file, line, True, what,
            f'{rule}:{construct}',
        ))

    def fail(
        self, rule: str, construct: str, file: str, line: int, what: str,
        key: str | None = None, detail: str = '',
    ) -> None:
        """`key` (normalised construct text or a short tag) distinguishes
        violations of the same rule on the same construct."""
        r = self._rule(rule)
        r['instances'] += 1
        r['violations'] += 1
        k = f'{rule}:{construct}'
        if key:
            k += ':' + norm(key)
        self.obligations.append(Obligation(
            rule, construct, file, line, False, what, k, detail,
        ))

    def check(
        self, cond: bool, rule: str, construct: str, file: str, line: int,
        what_ok: str, what_fail: str | None = None, key: str | None = None,
        detail: str = '',
    ) -> bool:
        if cond:
            self.ok(rule, construct, file, line, what_ok)
        else:
            self.fail(
                rule, construct, file, line,
                what_fail or ('NOT: ' + what_ok), key, detail,
            )
        return cond

    def observe(self, text: str) -> None:
        self.observations.append(text)

    def seen(self, *quals: str) -> None:
        for q in quals:
            self.analysed.add(q)

    def count(self, n: int = 1) -> None:
        self.evaluations += n

    def floor(self, rule: str, found: int, minimum: int, what: str) -> None:
        """Fewer instances than confirmed by hand: the rule went blind."""
        self._rule(rule)
        if found < minimum:
            # Decided at the end of the run: if the run also found
            # violations they are reported (the missing instances are
            # usually the deleted construct itself); otherwise the run is
            # an analysis error, never a silent pass.
            self.floor_failures.append(
                f'{rule}: found {found} {what}, floor is {minimum} '
                '(the rule no longer sees its instances)',
            )

    # ---- finishing ---------------------------------------------------------
    def violations(self) -> list[Obligation]:
        return [o for o in self.obligations if not o.ok]


def load_known() -> list[dict[str, Any]]:
    if not os.path.exists(KNOWN_PATH):
        return []
    with open(KNOWN_PATH) as f:
        return json.load(f)['findings']


def finish(rep: Report, seed: int, write: bool = True) -> int:
    """Print the verdict, write evidence, return the exit status."""
    known = {
        (k['property'], k['key']): k for k in load_known()
        if k.get('status') == 'known'
    }
    viol = rep.violations()
    # de-duplicate by key
    uniq: dict[str, Obligation] = {}
    for o in viol:
        uniq.setdefault(o.key, o)
    new, listed = [], []
    for k, o in uniq.items():
        if (rep.pid, k) in known:
            listed.append(o)
        else:
            new.append(o)
    for o in listed:
        print(
            f'KNOWN-FINDING: property={rep.pid} {o.key} '
            f'[{o.file}:{o.line}] {o.what}',
        )
    if write:
        os.makedirs(REPLAY_DIR, exist_ok=True)
    for o in new:
        h = hashlib.sha256(o.key.encode()).hexdigest()[:12]
        path = os.path.join(REPLAY_DIR, f'{rep.pid}-{h}.json')
        if write:
            with open(path, 'w') as f:
                json.dump({
                    'property': rep.pid, 'key': o.key, 'rule': o.rule,
                    'construct': o.construct, 'file': o.file,
                    'line': o.line, 'what': o.what, 'detail': o.detail,
                }, f, indent=1)
        print(f'VIOLATION property={rep.pid} replay={path}')
        print(f'  {o.file}:{o.line} {o.rule} {o.construct}: {o.what}')
        if o.detail:
            for ln in o.detail.splitlines():
                print('    ' + ln)
    for t in rep.observations:
        print(f'OBSERVATION: {t}')
    nob = len(rep.obligations)
    ndis = sum(1 for o in rep.obligations if o.ok)
    distinct = len({(o.rule, o.construct) for o in rep.obligations})
    print(
        f'{rep.pid} [{rep.tier}] obligations={nob} discharged={ndis} '
        f'violations={len(new)} known={len(listed)} '
        f'constructs_examined={rep.evaluations} '
        f'functions={len(rep.analysed)} wall={time.time() - rep.t0:.2f}s',
    )
    for r, c in sorted(rep.rules.items()):
        print(f'  rule {r}: instances={c["instances"]} '
              f'discharged={c["discharged"]} violations={c["violations"]}')
    for ff in rep.floor_failures:
        print(f'FLOOR: {ff}')
    if rep.floor_failures and not new:
        # nothing else explains the missing instances: the rule went blind
        print(f'ANALYSIS-ERROR: property={rep.pid} '
              + '; '.join(rep.floor_failures))
        return 2
    if write:
        write_evidence(rep, seed, new, listed, nob, ndis, distinct)
    return 1 if new else 0


def write_evidence(
    rep: Report, seed: int, new: list[Obligation], listed: list[Obligation],
    nob: int, ndis: int, distinct: int,
) -> None:
    os.makedirs(EVID_DIR, exist_ok=True)
    samples: list[Any] = []
    seen_rules: dict[str, int] = {}
    for o in rep.obligations:
        if seen_rules.get(o.rule, 0) < 3:
            seen_rules[o.rule] = seen_rules.get(o.rule, 0) + 1
            samples.append(o.as_dict())
    for o in new + listed:
        samples.append(o.as_dict())
    ev = {
        'property_id': rep.pid,
        'tier': rep.tier,
        'seed': seed,
        'level': 'other',
        'coverage': {
            'explanation': rep.explanation or (
                'static rule checking over the current source of /repo'
            ),
            'obligations': nob,
            'discharged': ndis,
            'evaluations': max(rep.evaluations, nob),
            'distinct_nontrivial': distinct,
            'rule': (
                'one obligation per rule instance found by query in the '
                'parsed source; distinct = distinct (rule, construct) pairs; '
                'an instance is non-trivial when the rule had to inspect a '
                'path, a data-flow link or a table entry to decide it'
            ),
            'samples': samples[:60],
            'rules': rep.rules,
            'functions_analysed': sorted(rep.analysed),
            'known_findings_reported': [o.key for o in listed],
            'new_violations': [o.key for o in new],
            'observations': rep.observations,
            'exhaustive': True,
            **rep.extra,
        },
        'assumptions': rep.assumptions,
        'wall_s': round(time.time() - rep.t0, 3),
        'violations': len(new),
    }
    with open(os.path.join(EVID_DIR, f'{rep.pid}.json'), 'w') as f:
        json.dump(ev, f, indent=1, sort_keys=False)
        f.write('\n')
