#!/usr/bin/env python3
"""Try a seeded change against the checks.

  tools/try_seed.py <dir-with-patch.diff> [--demo] [--props Cxx ...]

Applies patch.diff to a scratch worktree of /repo's HEAD (never to /repo
itself while something else is using it), runs the quick checks against it
with --root, prints which properties report a violation, optionally runs
the demonstration (demo.py) against the patched and the clean tree, and
resets the worktree.
"""
from __future__ import annotations

import argparse
import os
import subprocess
import sys
from concurrent.futures import ThreadPoolExecutor

WT = '/tmp/wt/seedtry'  # tools/seed.py owns /tmp/wt/seedtest
VERIF = os.path.dirname(os.path.dirname(os.path.abspath(__file__)))
PROPS = [f'C{i:02d}' for i in range(1, 21)]


def sh(cmd: str, **kw) -> subprocess.CompletedProcess:
    return subprocess.run(cmd, shell=True, text=True, capture_output=True,
                          **kw)


def ensure_wt() -> None:
    if not os.path.isdir(WT):
        os.makedirs(os.path.dirname(WT), exist_ok=True)
        r = sh(f'git -C /repo worktree add --detach {WT} HEAD')
        if r.returncode:
            sys.exit(r.stderr)
    sh(f'git -C {WT} checkout -q --detach $(git -C /repo rev-parse HEAD)')
    sh(f'git -C {WT} checkout -- . && git -C {WT} clean -fdq')


def run_check(pid: str) -> tuple[str, int, str]:
    r = sh(f'{VERIF}/check {pid} --no-evidence --root {WT}', cwd=VERIF)
    lines = [l for l in r.stdout.splitlines()
             if l.startswith('  ') and 'rule ' not in l[:8]]
    first = ''
    out = r.stdout.splitlines()
    for i, l in enumerate(out):
        if l.startswith('VIOLATION'):
            first = out[i + 1].strip() if i + 1 < len(out) else l
            break
        if l.startswith('ANALYSIS-ERROR'):
            first = l
            break
    _ = lines
    return pid, r.returncode, first


def main() -> int:
    ap = argparse.ArgumentParser()
    ap.add_argument('dirs', nargs='+')
    ap.add_argument('--demo', action='store_true')
    ap.add_argument('--props', nargs='*')
    a = ap.parse_args()
    rc = 0
    for d in a.dirs:
        patch = os.path.join(d, 'patch.diff')
        if not os.path.exists(patch):
            print(f'{d}: no patch.diff')
            continue
        ensure_wt()
        r = sh(f'git -C {WT} apply --whitespace=nowarn {patch}')
        if r.returncode:
            r = sh(f'git -C {WT} apply --3way --whitespace=nowarn {patch}')
        if r.returncode:
            print(f'{d}: patch does not apply: {r.stderr[:300]}')
            rc = 1
            continue
        files = sh(f'git -C {WT} diff --stat').stdout.strip().splitlines()
        print(f'== {d}: {files[-1] if files else "?"}')
        for f in files[:-1]:
            print('   ', f.strip())
        props = a.props or PROPS
        with ThreadPoolExecutor(max_workers=8) as ex:
            res = list(ex.map(run_check, props))
        fired = [(p, f) for p, c, f in res if c == 1]
        errs = [(p, f) for p, c, f in res if c == 2]
        for p, f in fired:
            print(f'   FIRED {p}: {f[:230]}')
        for p, f in errs:
            print(f'   ANALYSIS-ERROR {p}: {f[:200]}')
        if not fired and not errs:
            print('   silent: no check reports this change')
        if a.demo and os.path.exists(os.path.join(d, 'demo.py')):
            env = dict(os.environ, PYTHONPATH=WT)
            r1 = sh(f'cd {WT} && timeout 300 /venv/bin/python '
                    f'{d}/demo.py', env=env)
            sh(f'git -C {WT} checkout -- .')
            r0 = sh(f'cd {WT} && timeout 300 /venv/bin/python '
                    f'{d}/demo.py', env=env)
            print(f'   demo: patched exit={r1.returncode} '
                  f'({(r1.stdout.strip().splitlines() or ["?"])[-1][:80]}), '
                  f'clean exit={r0.returncode} '
                  f'({(r0.stdout.strip().splitlines() or ["?"])[-1][:80]})')
        sh(f'git -C {WT} checkout -- . && git -C {WT} clean -fdq')
    return rc


if __name__ == '__main__':
    sys.exit(main())
