#!/usr/bin/env python3
"""Run every check against behaviour-preserving patches.

  tools/try_neutral.py <dir-with-patch.diff> [...]      (e.g. /verif/neutral/*)

Each patch is applied in memory (overlay) to /repo's current tree and all
twenty checks are run on the result; every check must stay silent.  Exit 1
if any patch raises an alarm (VIOLATION or ANALYSIS-ERROR).
"""
from __future__ import annotations

import os
import sys
from concurrent.futures import ProcessPoolExecutor

sys.path.insert(0, os.path.dirname(os.path.dirname(os.path.abspath(__file__))))
sys.path.insert(0, os.path.dirname(os.path.abspath(__file__)))
from sa.cli import PROPS  # noqa: E402
from sa.selftest import apply_unified  # noqa: E402
import neutral_sweep  # noqa: E402

ROOT = '/repo'


def main() -> int:
    bad = 0
    for d in sys.argv[1:]:
        p = os.path.join(d, 'patch.diff') if os.path.isdir(d) else d
        if not os.path.exists(p):
            continue
        ov = apply_unified(ROOT, open(p, encoding='utf-8').read())
        if ov is None:
            print(f'{d}: patch does not apply to the current tree')
            bad += 1
            continue
        with ProcessPoolExecutor(max_workers=8) as ex:
            res = list(ex.map(neutral_sweep.run_one, [(q, ov) for q in PROPS]))
        alarms = [(pid, o, info) for pid, o, info in res if o != 'silent']
        files = ', '.join(sorted(ov))
        if alarms:
            bad += 1
            print(f'{d}: ALARM  ({files})')
            for pid, o, info in alarms:
                print(f'    {pid} {o} {info}')
        else:
            print(f'{d}: silent on all {len(PROPS)} checks  ({files})')
    return 1 if bad else 0


if __name__ == '__main__':
    sys.exit(main())
