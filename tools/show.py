#!/usr/bin/env python3
"""Print functions of /repo without docstrings: show.py path.py:Class.meth ..."""
import ast, sys
sys.path.insert(0, '/verif')
from sa.engine import Ctx
ctx = Ctx()
for q in sys.argv[1:]:
    f = ctx.fn(q)
    node = ast.parse(ast.unparse(f.node)).body[0]
    b = node.body
    if b and isinstance(b[0], ast.Expr) and isinstance(b[0].value, ast.Constant) and isinstance(b[0].value.value, str):
        node.body = b[1:] or [ast.Pass()]
    print(f'# ---- {q} (line {f.lineno})')
    print(ast.unparse(node))
