#!/usr/bin/env python3
"""Regenerate /verif/MANIFEST.json from the table below.

A property is listed under `checks` when sa/props/<id>.py exists, otherwise
under `not_applicable` (work in progress).  Run from /verif.
"""
from __future__ import annotations

import json
import os
import subprocess

HERE = os.path.dirname(os.path.dirname(os.path.abspath(__file__)))

# id: (technique, what the check gives, what is assumed / not decided)
T = {
 'C01': ('static analysis: workflow typestate (abstract interpretation of compile.py builders), guarded-accept dataflow, index-space typing, effect pairing, alternative-spelling agreement (ALTSPELL), even-parity of tentative in-place swaps on every exit (UNDO)',
         'Decides necessary structural clauses: every standard workflow configuration (levels 1-4 x error bound) ends with the facts MODEL, measurements restored, unfolded, real connectivity, native multi-qudit gates, routed, placed; candidates are committed only under cost < success_threshold with a data-flow link to the committed object; mapping bookkeeping is well typed over index spaces; measurement extraction/restoration are paired and are the first / last circuit-changing passes; a tentative swap of the routing state (swap scoring) is taken back on every exit.',
         'Numerical equality of linear maps, epsilon budgets and schedule independence are NOT decided. Trusted: the pass effect table (sa/tables/pass_effects.py), index-space signatures (sa/tables/index_spaces.py).'),
 'C02': ('static analysis: workflow typestate, registry agreement (REG), edge normal form (NF), conjunct coverage (CONJ), data-flow of the block sub-model, predicate specifications (PRED), predicate-implies-emit truth table (GUARDEMIT), flag-pair grouping of alternative gates (FLAGPAIR), alternative-spelling agreement (ALTSPELL)',
         'Decides: all circuit workflows end native+routed+placed and the direct workflows end native; replace-filter names are keys of the registry; is_compatible tests width, gate set, coupling and radixes on every path to True; edge-membership probes are normalised; the per-block sub-model is built from the block location; the branch predicates mean what the typestate assumes; ZXGatePredicate implies that one gate of every alternative pair ZXZXZDecomposition can emit is native (all gate-set patterns enumerated).',
         'That synthesis actually reaches native gates, and verdict equality of is_compatible on concrete circuits, are NOT decided.'),
 'C03': ('static analysis: workflow typestate (target set before search), guarded accept, order-preserving chain, aligned parallel lists (ALIGN), radix belief contradiction (RADIX), adjoint-spelling agreement against a reference table (ADJOINT)',
         'Decides: direct workflows set model and target before synthesis; search returns only under the threshold (or the logged best-effort exit); list inputs flow through order-preserving steps only; permutation tables are enumerated in the same nesting order where zipped; radix-dependent constructions build circuits of that radix; a matrix the pinned tree adjoins with .conj().T / .dagger is not merely transposed or conjugated.',
         'Convergence of numerical search and distance values are NOT decided.'),
 'C04': ('static analysis: CFG path rules (DUNDER, DEAD), batch-order classification with a linear-form evaluator (BATCHORD), sequence-order rules (SEQORD), append/insert specifications (APPEND, INSERT), shadow propagation in straighten (SHADOW), operation-parameter flow on unfold (PARAMFLOW), permutation direction (PERMDIR), no self-comparison (TAUT), index conventions: out-of-range dispatch (OOR), point normalisation (NORMPOINT), zero repeat (IMUL)',
         'Decides: in-place operators return self; documented result values are live; batch editors visit positions in an index-safe order; composite editors emit operations in program order and map locations through the given location; straighten pushes every qudit of a moved operation; unfold/unfold_all inline a block with the operation\'s parameters; renumber_qudits applies the permutation in the documented direction to every component; no comparison has the same operand on both sides; a construct that relies on a requested cycle being real (reversed insertion at one index, reporting the index back) is guarded by a test against num_cycles; methods that reuse a point after changing the circuit normalise it first; `c *= 0` is handled apart from the range(n - 1) copies.',
         'Equality with a list-of-cycles reference model over edit histories is NOT decided.'),
 'C05': ('static analysis: effect extraction over Circuit mutators (REMAP, COUP), key normal form (NF), pointer-slot typing (DAGLINK), response path rule, independent front/rear retargeting (FRONTREAR), read-API specifications (READAPI), permutation direction (PERMDIR), mirror-image agreement of prev/next siblings (MIRROR), who-may-write rule for operation locations (OPVALUE)',
         'Decides: every renumbering rewrites every index-bearing component of every view, all in the same direction; edge-counter keys are created sorted; primitive mutators co-update grid, links, front/rear and both counters with consistent signs; prev/next pointer writes are well typed; front and rear pointers are retargeted by independent tests in pop/replace/straighten; forward and backward sibling walkers are mirror images; pop removes a cycle it emptied; nothing but Operation stores to an operation\'s _location (qudit edits write new Operation objects into the grid).',
         'View consistency over arbitrary edit histories and absence of empty cycles after straighten/fold are NOT decided.'),
 'C06': ('static analysis: cursor discipline of sibling walkers (CURSOR), value-numbered clone comparison (CLONE), index-space typing of circuit-wide vs operation-local parameter indices (IXT), mirror-image agreement of the forward/backward grid walkers (MIRROR), radix-generic code never falls back to qubits (RADIXDROP, POW2)',
         'Decides: every function that walks operations with a running parameter index uses the same iteration order, slices params[i:i+W] and advances i by the same W exactly once per iteration; apply_right/left and their eval_ clones have equal contraction expressions; gradient product-rule structure; an operation-local parameter index never goes where a circuit-wide one is expected (and vice versa).',
         'Also decided: inside Circuit, UnitaryMatrix, StateVector, UnitaryBuilder and gates constructed with radixes, every UnitaryMatrix(...) / StateVector(...) wrapper passes the radixes (or copies under an isinstance test), and no tensor is sized with 2 ** n; nothing under bqskit/ir is memoised from state the class hands out by reference (MEMOALIAS). Correctness of the contraction itself and numerical values are NOT decided.'),
 'C07': ('static analysis: message-protocol extraction and closure (PROTO), token/lock dataflow (TOKEN, LOCK), cross-thread atomicity (ATOM), precedence and sibling rules',
         'Decides: the protocol is closed on all four channels with agreeing payload shapes and sibling consumers; round-trip requests are answered exactly once per path; the wake-once token is cleared when consumed; read-receipt lock discipline; mailbox exists before SUBMIT; routing siblings agree; next() batches are handed over by reference before the reset; Worker.map reserves one mailbox slot per task; a manager routes a message for a task it does not own below. Reports the non-atomic wake protocol as a known finding.',
         'Delivery orders, thread interleavings, exactly-once execution and liveness are NOT decided.'),
 'C08': ('static analysis: sibling agreement on barrier-like operations (SIB), exactly-one path rule in QuickPartitioner (PATH), live-parameter contradiction (PARAMLIVE), transitive-blocking co-update (CLOSURE), blocking sweep after every ordering event (BLOCKALL), pending-entry activation in a loop (DRAIN), operation-parameter flow on block re-wrapping (PARAMFLOW)',
         'Decides: each partitioner discriminates barrier/measurement/reset before grouping (five known findings); QuickPartitioner puts every operation in exactly one bin and only original points reach the output; a bounding argument passed by a caller is honoured by the callee; a bin that must wait for another inherits what that one waits for; every ordering event of the sweep (operation added to a bin, barrier queued) comes with a blocking sweep over all active bins in the same iteration; iterators that activate pending qudits drain all due entries; ExtendBlockSizePass and QuickPartitioner re-wrap a block with the operation\'s parameters.',
         'Block width bounds and order preservation on concrete circuits are algorithmic and NOT decided (only the transitivity co-update and the presence of the blocking sweeps are).'),
 'C09': ('static analysis: effect pairing in the forward passes (PAIR), index-space typing (IXT), data-flow of the executable list (FLOW), eq/hash (HASH), aligned lists (ALIGN), even-parity of tentative swaps (UNDO), field completeness of PassData.become (FIELDS)',
         'Decides: every change of pi is mirrored by an emitted swap (and vice versa) on every path; emitted locations are physical; operations are emitted only if _can_exe held; mapping writes are well typed and placed after the forward pass; CouplingGraph hash is order independent; the permutation-aware passes enumerate their permutation tables in aligned order; swap scoring takes its tentative swap back on every exit; every swap the routers emit names the circuit\'s radix (SWAPRADIX); list-based worklist searches filter successors against what they have seen (VISITED); no gate class whose constructor fixes the radixes to 2 goes into a radix-generic circuit of a mapping pass (QUBITGATE); every placement pass tests connectivity of what it places (PLACECONN); the routers empty their no-progress swap list on every path through the gates-executed branch (PROGRESS).',
         'Equality of output and input under the mappings, termination of the uphill escape and connectivity of placements are NOT decided.'),
 'C10': ('static analysis: guarded accept over all numerical passes (GA), radix belief contradiction (RADIX), rule-template protocol (TEMPLATE), effect restriction (EFF), alternative-spelling agreement (ALTSPELL), ordered-complement slices (STABLEMOVE), operation-parameter flow (PARAMFLOW), enumeration index identity (ENUMID), adjoint-spelling agreement (ADJOINT), unclipped inverse sine/cosine (NANDOM), stored-option liveness (OPTLIVE), directional index shift (SHIFTDIR), flag x target guard grid (GRID), unitary diagonalisers (EIGUNIT)',
         'Decides: every numerical pass commits a candidate only under cost < threshold linked to that candidate and the pass target; qubit-only constructions are not fed radix-dependent gates; rule passes drop their source gate, introduce the advertised target and replace every collected point; removal passes only pop; the two spellings of a rotation receive the same angle; moving the multiplexor target keeps the select order; re-wrapped blocks keep their operation\'s parameters; an enumerate() index used as an identifier is taken over the unfiltered sequence; matrices the pinned tree adjoins are not merely transposed or conjugated; no pass takes arccos/arcsin of an unclipped matrix-derived value; every constructor option a pass stores is read by something an instance can execute (two known findings: max_depth of QFAST / QPredict decomposition); two-way scans shift cycle indices only from the left; BlockConversionPass has one guard per (kind, target) pair; no eig() eigenvector matrix is used as a unitary.',
         'Algebraic correctness of rules and decompositions is arithmetic over reals and NOT decided.'),
 'C11': ('static analysis: CFG specifications of control passes (SPEC), co-update and data-flow rules for ForEachBlockPass (COUP, FLOW), capture/restore pairing (PAIR), field completeness (FIELDS), operation-parameter flow into the per-block sub-circuit (PARAMFLOW)',
         'Decides: each control pass runs its bodies under exactly the predicate edges its specification names; ForEachBlockPass records point/op/error together from positions captured before the body ran and writes back once; rejected branches restore circuit and data; PassData.become restores every field; the named replace filters are built over the same placement-aware connectivity as the body\'s sub-models (SAMECONN).',
         'Error-bound arithmetic being an upper bound and batch_replace compensation on concrete circuits are NOT decided.'),
 'C12': ('static analysis: container coverage of the cancel handler (COVER), path rules over cancel/forward/refuse sites (MUST), release-on-discard (LEAK), admissible refusal conditions (REFUSE), monotone id allocators (FRESH)',
         'Decides: cancel reaches every task-holding container of the worker, every role forwards it, results/awaits of cancelled work are refused, finished owners cancel unfinished children; the server declines a cancel only for unknown/cancelled/foreign tasks; mailbox ids are never reused; the worker marks a task cancelled before it drops its work, and a cancelled task\'s error is not forwarded; reports the two discard branches that leak a _tasks entry as known findings.',
         'Races between CANCEL and RESULT and quiescent emptiness in general are NOT decided.'),
 'C13': ('static analysis: tainted-key guard analysis with table invariants (KEYGUARD), ownership checks (OWNER), error-chain path rules (MUST), monotone id allocator (FRESH)',
         'Decides: every client-keyed table access in the server loop is guarded, defaulted or covered by a listed invariant (so no request raises KeyError into the loop); handlers check ownership; task errors are forwarded worker -> server -> owning client -> exception, tagged with the compilation id; server mailbox ids are never reused.',
         'Multi-client interleavings are NOT enumerated; table invariants I1-I8 are asserted (their same-block maintenance is checked).'),
 'C14': ('static analysis: classification of blocking receives in loops (RECV) and path rules over the shutdown chain (MUST), exception coverage of thread functions (RECV:coverage)',
         'Decides: a connection-loss exception in any receive/send loop propagates or reaches a terminating effect; losing an employee connection leads to shutdown, which tells and joins every employee, closes client connections and is forwarded on every role; client calls convert a closed connection into an exception; receive/send handlers in thread functions cover end-of-file and OS-level loss; every handle_disconnect override reaches the base version or shuts down; the detached server joins its listener thread only after the base shutdown has cleared the running flag.',
         'Bounded time, crash points mid-message and second crashes are NOT decided.'),
 'C15': ('static analysis: lock dataflow (LOCK), co-update (COUP), registry agreement of receipts (REG), exactly-one path rule (PATH), data-flow with linear forms (FLOW), complementary slices (PARTITION)',
         'Decides: read-receipt lock discipline; schedule_tasks co-updates enqueue/count/idle(min)/cache; echoed receipts equal cached ids; exactly one completion notice per task per role; handle_waiting applies the clamped correction and keeps the range assertion; task lists are split into complementary slices and the count reported upstream is that of the kept slice; the server books an UPDATE payload on the sending employee.',
         'Counter exactness under message crossings is value-level and NOT decided.'),
 'C16': ('static analysis: field completeness (FIELDS), pickle writer/reader shape agreement (REDUCE), eq/hash consistency (HASH), reserved-key registry (REG), prefix-equality (zip) clause, radix-blind component clause, hash memo clause, deep-branch aliasing (DEEP), pickle new-args agreement (NEWARGS), no self-comparison (TAUT)',
         'Decides: copy/become/clear and the CouplingGraph copy-constructor carry every __init__ field; Circuit.__reduce__ and rebuild_circuit agree on state shape, gate indexing, dill flag and cycle grouping; every eq/hash pair in bqskit/ is consistent and order independent and no __eq__ stops at the shorter operand or compares a radix-blind component without the radixes; a memoised hash is computed from the same fields as the unmemoised one; become(deepcopy=True) deep-copies nested containers; classes with __new__(**kwargs) return (args, kwargs) to pickle from what __new__ kept; CachedClass keys its instances on the arguments bound to the constructor\'s signature with defaults applied (CACHEKEY), since cached gates are compared by identity.',
         'Equality of concrete round-tripped objects and dill coverage of closures are NOT decided.'),
 'C17': ('static analysis: registry agreement between QASM writer and reader tables and between grammar, evaluator and the OpenQASM 2 function set (REG), translator data-flow (FLOW), register-offset cursor discipline and index-space typing in the reader (REGOFF), declare-once in the writer (DECLONCE), bracket / spliced-number clauses of the expression evaluator (REG-rules), parameter cursor of custom gate definitions (CURSOR), ascending index inserts (INSERTORD), grammar hygiene read from the lark grammar as data (UNUSED, LITRULE, INLINEKW) and list-walk agreement with the grammar\'s recursion (LISTWALK)',
         'Decides: every statically named gate spelling the writer can emit is in the reader table with the same arity and constructor (known gaps reported); grammar function terminals = evaluator table = OpenQASM 2 set; every semantic grammar rule has a visitor method; translators go through the QASM codec; every register-local qubit index reaches the circuit only shifted by its register\'s offset, computed by a cursor that starts at 0 and advances by each register\'s size; the writer declares each register once; the evaluator keeps the brackets of a parenthesised sub-expression and brackets every spliced argument; a custom gate definition hands each inner gate its own parameter slice; every grammar rule is referenced, every keyword literal is an OpenQASM 2 word, no keyword alternative hides inside a rule without visitor method, and the visitor\'s list walkers descend into the child the grammar\'s left recursion puts first; every attribute a gate\'s __eq__ compares is read by its QASM writer (EQQASM); no visitor loop descends blindly through single-child tree nodes, which would cross the unary minus (UNWRAP); generated gate identifiers derive from hash(gate) / the gate\'s circuit (IDENT).',
         'Unitary agreement with Qiskit and parameter binding in nested definitions are NOT decided.'),
 'C18': ('static analysis: eq/hash consistency (HASH), override pairing (OVERRIDE), value-numbered agreement of get_unitary/get_grad/get_unitary_and_grad (TRIAD), gradient literal shapes (GRADSHAPE, SIBTEMP), order-sensitive folds (KRONFOLD, INSERTORD), adjoint-spelling agreement (ADJOINT), no angle from a quotient (ATAN), symbolic differentiation of hand-written unitaries in the sin/cos/phase polynomial ring (GRADSYM), magnitude-blind optimisers (MAGBLIND), totality of calc_params under the inherited optimize (TOTAL), unclipped inverse sine/cosine (NANDOM), unguarded division by a recovered angle\'s sine/cosine in calc_params (DEGEN)',
         'Decides: all gate classes have consistent, order-independent eq/hash; inverse methods are overridden together; the three evaluation entry points of delegating gates are the same expressions; hand-written gradient literals have one matrix per parameter with the unitary\'s shape; Kronecker folds keep the accumulator on the left; index inserts run in ascending order; matrices the pinned tree adjoins are not merely transposed or conjugated; optimize() recovers angles with a two-argument arctangent, never from a quotient; for the gates written out as matrices of sines, cosines and phases (U2, U3, CKM, CKMdg) every gradient entry equals the symbolic derivative of the unitary entry; no optimize() computes a parameter from the separate phases of several environment entries it multiplies; a class inheriting GeneralGate.optimize has a calc_params without content-dependent raise; arccos/arcsin arguments are clipped or normalised ratios and calc_params does not divide by an unguarded sine/cosine of a recovered angle; EmbeddedGate computes its index into the embedding\'s matrix from the embedding\'s own radixes (EMBEDSPACE).',
         'Unitarity, derivative values outside that fragment (delegating, expm- and kron-based gates), calc_params and agreement with the binary expression backend are numerical and NOT decided.'),
 'C19': ('static analysis: returns-receiver path rule, effect restriction on the receiver circuit (EFF), arg-min selection idiom over the four multi-start siblings, in both the sort and the running-minimum spelling (ARGMIN), parameter-vector order (CURSOR), clone comparison of the UnitaryBuilder contractions (CLONE)',
         'Decides: Circuit.instantiate returns self on every path; from instantiate and every instantiater only set_params mutates the receiver; all multi-start selectors keep the candidate of least Hilbert-Schmidt cost against (circuit, target); Circuit.params is the concatenation in iteration order.',
         'Also decided from the class hierarchy (CAPABLE): QFactor\'s capability predicate does not reject parameter-free gates that are not locally optimisable by inheritance; every multi-start entry point compares the target\'s dimension with the circuit\'s (TARGETDIM). Everything about the native cost engine (compiled bqskitrs) is outside the source tree and NOT decided.'),
 'C20': ('static analysis: undirected-edge normal form for writers and probes (NF), parallel-view derivation (FIELDS), set-growing search specification (GROW), clone comparison of the UnitaryBuilder contractions (CLONE), index-domain agreement of ranged subscripts (RANGEDOM), full-range sort of the completed permutation (SORTALL), order and tautology rules of the utility layer (SETORDER, VALORD, ABSDET, ARGSCALAR)',
         'Decides only the representation invariant: edges are stored normalised, every membership probe is normalised or probes both orders, _edges/_adj/_mat are derived from one edge set, returned subgraphs are built through the constructor; the connected-subset search starts from every vertex, grows a private copy and draws candidates from the adjacency of every member; apply_left/right and their eval_ clones contract alike; a loop variable ranging over one graph\'s vertices does not index a table built over another\'s; PermutationMatrix.from_qudit_location sorts every position of the completed permutation; no ordered key is built from an unsorted set, no list indexed by key is taken from dict.values() in insertion order, no tautological |det| test, no argmax of a scalar.',
         'Shortest paths, permutation matrices and the values of contractions are algorithmic/numerical and NOT decided (of the enumeration only the growth rule is).'),
}


def main() -> None:
    props = [json.loads(l) for l in open(os.path.join(HERE, 'properties.jsonl'))]
    commits = subprocess.run(
        ['git', '-C', '/repo', 'log', '--format=%h %s'], text=True,
        capture_output=True).stdout.splitlines()
    fixes = [c.split()[0] for c in commits if c.split(' ', 1)[1].startswith('fix:')]
    checks, na = [], []
    for p in props:
        pid = p['id']
        tech, text, note = T[pid]
        if os.path.exists(os.path.join(HERE, 'sa', 'props', pid + '.py')):
            checks.append({
                'property_id': pid,
                'quick_cmd': f'./check {pid} --tier quick',
                'thorough_cmd': f'./check {pid} --tier thorough',
                'evidence_file': f'evidence/{pid}.json',
                'replay_cmd_template': f'./check {pid} --replay {{path}}',
                'engine': 'sa',
                'level_claimed': {
                    'category': 'other',
                    'text': text + ' This is rule checking on the current '
                    'source: exhaustive over the rule instances found in the '
                    'tree, silent about behaviour that is not visible in the '
                    'shape of the code.',
                    'design_ref': f'DESIGN.md section 4/{pid}',
                },
                'level_note': note + ' Trusted base: CPython ast, the '
                'engine under /verif/sa, the frozen slot tables named in '
                'the evidence assumptions.',
                'technique': tech,
            })
        else:
            na.append({'property_id': pid, 'reason':
                       'check not yet implemented at this commit (work in '
                       'progress; see DESIGN.md section 4)'})
    m = {
        'version': 1,
        'setup_cmd': './check --setup',
        'hooks': {
            'guard': 'BQSKIT_VERIF',
            'enable': 'none needed: static analysis reads /repo\'s source; '
                      'no guarded code is added to BQSKit',
            'baseline_off_cmd': 'cd /repo && /venv/bin/python -m pytest -ra '
                                '-q -p no:cacheprovider --timeout=900 '
                                '--continue-on-collection-errors',
            'source_commits': fixes[::-1],
            'add_only': True,
        },
        'engines': [{
            'name': 'sa', 'path': 'sa/',
            'serves_properties': [c['property_id'] for c in checks],
            'kind_free_text': 'repository-specific static analysis: AST '
            'index with MRO/import resolution, statement CFG with path '
            'patterns, reaching definitions, lock-state dataflow, value '
            'numbering, purpose-built abstract interpreters',
        }],
        'checks': checks,
        'notes': 'All checks are static (no bqskit import, no test run). '
                 'source_commits are unguarded "fix:" repairs of genuine '
                 'defects (see known_findings.json); there are no hooks.',
        'not_applicable': na,
    }
    with open(os.path.join(HERE, 'MANIFEST.json'), 'w') as f:
        json.dump(m, f, indent=1)
        f.write('\n')
    print(f'{len(checks)} checks, {len(na)} not yet claimed, '
          f'{len(fixes)} fix commits')


if __name__ == '__main__':
    main()
