#!/bin/sh
# Regenerate the reference tables from /repo's current tree.  Run after every
# `fix:` commit in /repo (the tables describe the pinned tree the rules were
# confirmed against), then re-run ./check --all, --selftest and the sweeps.
set -e
cd "$(dirname "$0")/.."
/venv/bin/python -m sa.dealpha
/venv/bin/python - <<'PY'
import json, sys
sys.path.insert(0, '.')
from sa.rules import adjoint
t = adjoint.build_table('/repo')
json.dump(t, open(adjoint.TABLE, 'w'), indent=1, sort_keys=True)
print(len(t), 'functions with adjoined matrices')
PY
/venv/bin/python tools/gen_manifest.py
