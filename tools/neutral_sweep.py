#!/usr/bin/env python3
"""Whole-tree neutral edits: every check must stay silent.

  format   every file re-formatted with `ruff format` (if available)
  unparse  every file replaced by ast.unparse of itself (drops comments,
           normalises layout, quotes and parentheses)
  logging  a harmless statement inserted at the top of every function body
  rename   (per property, in selftest/mutants.py) local renames

Usage: tools/neutral_sweep.py [format|unparse|logging] [Cxx ...]
"""
from __future__ import annotations

import ast
import os
import subprocess
import sys
from concurrent.futures import ProcessPoolExecutor

sys.path.insert(0, os.path.dirname(os.path.dirname(os.path.abspath(__file__))))
from sa.cli import PROPS  # noqa: E402
from sa.engine import Ctx  # noqa: E402
from sa.report import Report, load_known  # noqa: E402
from sa.source import AnalysisError, SourceSet  # noqa: E402
import importlib  # noqa: E402

ROOT = '/repo'


def _scope_locals(fn: ast.AST) -> set[str]:
    """Names bound in the function's own scope (not parameters, not names
    bound only in nested scopes, not global/nonlocal)."""
    out: set[str] = set()
    banned: set[str] = set()
    a = fn.args
    params = {x.arg for x in a.posonlyargs + a.args + a.kwonlyargs}
    if a.vararg:
        params.add(a.vararg.arg)
    if a.kwarg:
        params.add(a.kwarg.arg)

    def walk(n: ast.AST, top: bool) -> None:
        for c in ast.iter_child_nodes(n):
            if isinstance(c, (ast.FunctionDef, ast.AsyncFunctionDef,
                              ast.ClassDef)):
                out.add(c.name) if False else None
                banned.add(c.name)
                continue
            if isinstance(c, (ast.Lambda, ast.ListComp, ast.SetComp,
                              ast.DictComp, ast.GeneratorExp)):
                # own scope for its targets; but walrus leaks: ignore
                continue
            if isinstance(c, (ast.Global, ast.Nonlocal)):
                banned.update(c.names)
            if isinstance(c, ast.Name) and isinstance(
                c.ctx, (ast.Store, ast.Del)):
                out.add(c.id)
            if isinstance(c, ast.ExceptHandler) and c.name:
                banned.add(c.name)
            if isinstance(c, (ast.Import, ast.ImportFrom)):
                for al in c.names:
                    banned.add((al.asname or al.name).split('.')[0])
            walk(c, False)
    walk(fn, True)
    return out - params - banned - {'self', 'cls'}


class _Renamer(ast.NodeTransformer):
    def __init__(self) -> None:
        self.maps: list[dict[str, str]] = []

    def _fn(self, n):
        loc = _scope_locals(n)
        # a nested function's own params/locals shadow the outer mapping
        a = n.args
        own = {x.arg for x in a.posonlyargs + a.args + a.kwonlyargs}
        outer = {k: v for m in self.maps for k, v in m.items()
                 if k not in own and k not in loc}
        m = dict(outer)
        m.update({k: f'{k}_rn' for k in loc})
        # decorators, defaults and annotations live in the enclosing scope
        n.decorator_list = [self.visit(d) for d in n.decorator_list]
        n.args.defaults = [self.visit(d) for d in n.args.defaults]
        n.args.kw_defaults = [
            self.visit(d) if d is not None else None
            for d in n.args.kw_defaults]
        self.maps.append(m)
        n.body = [self.visit(s) for s in n.body]
        self.maps.pop()
        return n
    visit_FunctionDef = visit_AsyncFunctionDef = _fn

    def visit_Lambda(self, n):
        own = {x.arg for x in n.args.args}
        m = {k: v for mm in self.maps[-1:] for k, v in mm.items()
             if k not in own}
        # lambda parameters are renamed too (positional callers only)
        m.update({k: f'{k}_lm' for k in own})
        for a in n.args.args:
            a.arg = m[a.arg]
        self.maps.append(m)
        n.body = self.visit(n.body)
        self.maps.pop()
        return n

    def _comp(self, n):
        own = {x.id for g in n.generators for x in ast.walk(g.target)
               if isinstance(x, ast.Name)}
        m = {k: v for mm in self.maps[-1:] for k, v in mm.items()
             if k not in own}
        # comprehension variables are renamed too
        m.update({k: f'{k}_cv' for k in own})
        # the first iterable is evaluated in the enclosing scope
        first = n.generators[0].iter
        n.generators[0].iter = self.visit(first)
        self.maps.append(m)
        for i, g in enumerate(n.generators):
            g.target = self.visit(g.target)
            if i:
                g.iter = self.visit(g.iter)
            g.ifs = [self.visit(x) for x in g.ifs]
        if isinstance(n, ast.DictComp):
            n.key = self.visit(n.key)
            n.value = self.visit(n.value)
        else:
            n.elt = self.visit(n.elt)
        self.maps.pop()
        return n
    visit_ListComp = visit_SetComp = visit_GeneratorExp = _comp
    visit_DictComp = _comp

    def visit_ClassDef(self, n):
        # names bound in the class body are attributes: never renamed
        bound = {t.id for s in n.body for t in ast.walk(s)
                 if isinstance(t, ast.Name) and isinstance(t.ctx, ast.Store)}
        saved = self.maps
        self.maps = [{k: v for k, v in (saved[-1] if saved else {}).items()
                      if k not in bound}] if saved else []
        self.generic_visit(n)
        self.maps = saved
        return n

    def visit_Name(self, n):
        if self.maps and n.id in self.maps[-1]:
            n.id = self.maps[-1][n.id]
        return n


def rename_locals(text: str) -> str:
    """Alpha-rename every local variable of every function (parameters,
    attributes, globals and imports keep their names)."""
    tree = ast.parse(text)
    return ast.unparse(ast.fix_missing_locations(
        _Renamer().visit(tree))) + '\n'


def overlay(kind: str) -> dict[str, str]:
    src = SourceSet(ROOT)
    out = {}
    for rel in src.files():
        text = src.text(rel)
        if kind == 'unparse':
            new = ast.unparse(ast.parse(text)) + '\n'
        elif kind == 'rename':
            new = rename_locals(text)
        elif kind == 'format':
            r = subprocess.run(
                ['/venv/bin/ruff', 'format', '--stdin-filename', rel, '-'],
                input=text, text=True, capture_output=True)
            if r.returncode != 0:
                continue
            new = r.stdout
        elif kind == 'logging':
            tree = ast.parse(text)

            class T(ast.NodeTransformer):
                def _fn(self, n):
                    self.generic_visit(n)
                    body = n.body
                    i = 1 if (body and isinstance(body[0], ast.Expr)
                              and isinstance(body[0].value, ast.Constant)
                              and isinstance(body[0].value.value, str)) else 0
                    stmt = ast.parse('_neutral_marker = 0').body[0]
                    n.body = body[:i] + [stmt] + body[i:]
                    return n
                visit_FunctionDef = visit_AsyncFunctionDef = _fn
            new = ast.unparse(ast.fix_missing_locations(T().visit(tree)))
            new += '\n'
        else:
            raise SystemExit(f'unknown kind {kind}')
        try:
            compile(new, rel, 'exec')
        except SyntaxError:
            continue
        if new != text:
            out[rel] = new
    return out


def run_one(args):
    pid, ov = args
    try:
        mod = importlib.import_module(f'sa.props.{pid}')
        ctx = Ctx(ROOT, ov, 'quick')
        rep = Report(pid, 'quick')
        mod.run(ctx, rep)
        known = {k['key'] for k in load_known()
                 if k.get('status') == 'known' and k['property'] == pid}
        v = [o for o in rep.violations() if o.key not in known]
        if not v and rep.floor_failures:
            return pid, 'ANALYSIS-ERROR', rep.floor_failures[:2]
        return pid, 'silent' if not v else 'ALARM', [
            f'{o.key} @{o.line}' for o in v[:4]]
    except AnalysisError as e:
        return pid, 'ANALYSIS-ERROR', [str(e)[:150]]
    except Exception as e:  # noqa
        return pid, 'CRASH', [repr(e)[:150]]


def main() -> int:
    kinds = [a for a in sys.argv[1:] if not a.startswith('C')] or [
        'unparse', 'logging', 'format']
    props = [a for a in sys.argv[1:] if a.startswith('C')] or PROPS
    bad = 0
    for kind in kinds:
        ov = overlay(kind)
        print(f'== {kind}: {len(ov)} files changed')
        with ProcessPoolExecutor(max_workers=8) as ex:
            for pid, outcome, info in ex.map(
                    run_one, [(p, ov) for p in props]):
                flag = '' if outcome == 'silent' else '  <<<'
                print(f'{kind:8s} {pid} {outcome}{flag} {info}')
                bad += outcome != 'silent'
    return 1 if bad else 0


if __name__ == '__main__':
    sys.exit(main())
