#!/usr/bin/env python3
"""Whole-tree neutral edits: every check must stay silent.

  format   every file re-formatted with `ruff format` (if available)
  unparse  every file replaced by ast.unparse of itself (drops comments,
           normalises layout, quotes and parentheses)
  logging  a harmless statement inserted at the top of every function body
  rename   (per property, in selftest/mutants.py) local renames

Usage: tools/neutral_sweep.py [format|unparse|logging] [Cxx ...]
"""
from __future__ import annotations

import ast
import os
import subprocess
import sys
from concurrent.futures import ProcessPoolExecutor

sys.path.insert(0, os.path.dirname(os.path.dirname(os.path.abspath(__file__))))
from sa.cli import PROPS  # noqa: E402
from sa.engine import Ctx  # noqa: E402
from sa.report import Report, load_known  # noqa: E402
from sa.source import AnalysisError, SourceSet  # noqa: E402
import importlib  # noqa: E402

ROOT = '/repo'


def overlay(kind: str) -> dict[str, str]:
    src = SourceSet(ROOT)
    out = {}
    for rel in src.files():
        text = src.text(rel)
        if kind == 'unparse':
            new = ast.unparse(ast.parse(text)) + '\n'
        elif kind == 'format':
            r = subprocess.run(
                ['/venv/bin/ruff', 'format', '--stdin-filename', rel, '-'],
                input=text, text=True, capture_output=True)
            if r.returncode != 0:
                continue
            new = r.stdout
        elif kind == 'logging':
            tree = ast.parse(text)

            class T(ast.NodeTransformer):
                def _fn(self, n):
                    self.generic_visit(n)
                    body = n.body
                    i = 1 if (body and isinstance(body[0], ast.Expr)
                              and isinstance(body[0].value, ast.Constant)
                              and isinstance(body[0].value.value, str)) else 0
                    stmt = ast.parse('_neutral_marker = 0').body[0]
                    n.body = body[:i] + [stmt] + body[i:]
                    return n
                visit_FunctionDef = visit_AsyncFunctionDef = _fn
            new = ast.unparse(ast.fix_missing_locations(T().visit(tree)))
            new += '\n'
        else:
            raise SystemExit(f'unknown kind {kind}')
        try:
            compile(new, rel, 'exec')
        except SyntaxError:
            continue
        if new != text:
            out[rel] = new
    return out


def run_one(args):
    pid, ov = args
    try:
        mod = importlib.import_module(f'sa.props.{pid}')
        ctx = Ctx(ROOT, ov, 'quick')
        rep = Report(pid, 'quick')
        mod.run(ctx, rep)
        known = {k['key'] for k in load_known()
                 if k.get('status') == 'known' and k['property'] == pid}
        v = [o for o in rep.violations() if o.key not in known]
        if not v and rep.floor_failures:
            return pid, 'ANALYSIS-ERROR', rep.floor_failures[:2]
        return pid, 'silent' if not v else 'ALARM', [
            f'{o.key} @{o.line}' for o in v[:4]]
    except AnalysisError as e:
        return pid, 'ANALYSIS-ERROR', [str(e)[:150]]
    except Exception as e:  # noqa
        return pid, 'CRASH', [repr(e)[:150]]


def main() -> int:
    kinds = [a for a in sys.argv[1:] if not a.startswith('C')] or [
        'unparse', 'logging', 'format']
    props = [a for a in sys.argv[1:] if a.startswith('C')] or PROPS
    bad = 0
    for kind in kinds:
        ov = overlay(kind)
        print(f'== {kind}: {len(ov)} files changed')
        with ProcessPoolExecutor(max_workers=8) as ex:
            for pid, outcome, info in ex.map(
                    run_one, [(p, ov) for p in props]):
                flag = '' if outcome == 'silent' else '  <<<'
                print(f'{kind:8s} {pid} {outcome}{flag} {info}')
                bad += outcome != 'silent'
    return 1 if bad else 0


if __name__ == '__main__':
    sys.exit(main())
