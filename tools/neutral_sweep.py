#!/usr/bin/env python3
"""Whole-tree neutral edits: every check must stay silent.

  format   every file re-formatted with `ruff format` (if available)
  unparse  every file replaced by ast.unparse of itself (drops comments,
           normalises layout, quotes and parentheses)
  logging  a harmless statement inserted at the top of every function body
  rename   every local variable, comprehension variable and lambda
           parameter of every function renamed
  hoist    extract-variable: the first non-trivial argument of every
           statement-level call is computed into a fresh local first
  flip     every two-armed `if X: A else: B` becomes `if not X: B else: A`
           (also conditional expressions)
  annot    every `name = v` in a function gets an annotation, every
           annotated local loses it
  swap     adjacent independent constant initialisations change places

Usage: tools/neutral_sweep.py [all|format|unparse|logging|...] [Cxx ...]
"""
from __future__ import annotations

import ast
import os
import subprocess
import sys
from concurrent.futures import ProcessPoolExecutor

sys.path.insert(0, os.path.dirname(os.path.dirname(os.path.abspath(__file__))))
from sa.cli import PROPS  # noqa: E402
from sa.engine import Ctx  # noqa: E402
from sa.report import Report, load_known  # noqa: E402
from sa.source import AnalysisError, SourceSet  # noqa: E402
import importlib  # noqa: E402

ROOT = '/repo'


def _scope_locals(fn: ast.AST) -> set[str]:
    """Names bound in the function's own scope (not parameters, not names
    bound only in nested scopes, not global/nonlocal)."""
    out: set[str] = set()
    banned: set[str] = set()
    a = fn.args
    params = {x.arg for x in a.posonlyargs + a.args + a.kwonlyargs}
    if a.vararg:
        params.add(a.vararg.arg)
    if a.kwarg:
        params.add(a.kwarg.arg)

    def walk(n: ast.AST, top: bool) -> None:
        for c in ast.iter_child_nodes(n):
            if isinstance(c, (ast.FunctionDef, ast.AsyncFunctionDef,
                              ast.ClassDef)):
                out.add(c.name) if False else None
                banned.add(c.name)
                continue
            if isinstance(c, (ast.Lambda, ast.ListComp, ast.SetComp,
                              ast.DictComp, ast.GeneratorExp)):
                # own scope for its targets; but walrus leaks: ignore
                continue
            if isinstance(c, (ast.Global, ast.Nonlocal)):
                banned.update(c.names)
            if isinstance(c, ast.Name) and isinstance(
                c.ctx, (ast.Store, ast.Del)):
                out.add(c.id)
            if isinstance(c, ast.ExceptHandler) and c.name:
                banned.add(c.name)
            if isinstance(c, (ast.Import, ast.ImportFrom)):
                for al in c.names:
                    banned.add((al.asname or al.name).split('.')[0])
            walk(c, False)
    walk(fn, True)
    return out - params - banned - {'self', 'cls'}


class _Renamer(ast.NodeTransformer):
    def __init__(self) -> None:
        self.maps: list[dict[str, str]] = []

    def _fn(self, n):
        loc = _scope_locals(n)
        # a nested function's own params/locals shadow the outer mapping
        a = n.args
        own = {x.arg for x in a.posonlyargs + a.args + a.kwonlyargs}
        outer = {k: v for m in self.maps for k, v in m.items()
                 if k not in own and k not in loc}
        m = dict(outer)
        m.update({k: f'{k}_rn' for k in loc})
        # decorators, defaults and annotations live in the enclosing scope
        n.decorator_list = [self.visit(d) for d in n.decorator_list]
        n.args.defaults = [self.visit(d) for d in n.args.defaults]
        n.args.kw_defaults = [
            self.visit(d) if d is not None else None
            for d in n.args.kw_defaults]
        self.maps.append(m)
        n.body = [self.visit(s) for s in n.body]
        self.maps.pop()
        return n
    visit_FunctionDef = visit_AsyncFunctionDef = _fn

    def visit_Lambda(self, n):
        own = {x.arg for x in n.args.args}
        m = {k: v for mm in self.maps[-1:] for k, v in mm.items()
             if k not in own}
        # lambda parameters are renamed too (positional callers only)
        m.update({k: f'{k}_lm' for k in own})
        for a in n.args.args:
            a.arg = m[a.arg]
        self.maps.append(m)
        n.body = self.visit(n.body)
        self.maps.pop()
        return n

    def _comp(self, n):
        own = {x.id for g in n.generators for x in ast.walk(g.target)
               if isinstance(x, ast.Name)}
        m = {k: v for mm in self.maps[-1:] for k, v in mm.items()
             if k not in own}
        # comprehension variables are renamed too
        m.update({k: f'{k}_cv' for k in own})
        # the first iterable is evaluated in the enclosing scope
        first = n.generators[0].iter
        n.generators[0].iter = self.visit(first)
        self.maps.append(m)
        for i, g in enumerate(n.generators):
            g.target = self.visit(g.target)
            if i:
                g.iter = self.visit(g.iter)
            g.ifs = [self.visit(x) for x in g.ifs]
        if isinstance(n, ast.DictComp):
            n.key = self.visit(n.key)
            n.value = self.visit(n.value)
        else:
            n.elt = self.visit(n.elt)
        self.maps.pop()
        return n
    visit_ListComp = visit_SetComp = visit_GeneratorExp = _comp
    visit_DictComp = _comp

    def visit_ClassDef(self, n):
        # names bound in the class body are attributes: never renamed
        bound = {t.id for s in n.body for t in ast.walk(s)
                 if isinstance(t, ast.Name) and isinstance(t.ctx, ast.Store)}
        saved = self.maps
        self.maps = [{k: v for k, v in (saved[-1] if saved else {}).items()
                      if k not in bound}] if saved else []
        self.generic_visit(n)
        self.maps = saved
        return n

    def visit_Name(self, n):
        if self.maps and n.id in self.maps[-1]:
            n.id = self.maps[-1][n.id]
        return n


def rename_locals(text: str) -> str:
    """Alpha-rename every local variable of every function (parameters,
    attributes, globals and imports keep their names)."""
    tree = ast.parse(text)
    return ast.unparse(ast.fix_missing_locations(
        _Renamer().visit(tree))) + '\n'


def _pure(e: ast.AST) -> bool:
    """Evaluating e has no effect and cannot observe one (names, constants,
    attribute chains)."""
    while isinstance(e, ast.Attribute):
        e = e.value
    return isinstance(e, (ast.Name, ast.Constant))


class _Hoister(ast.NodeTransformer):
    """Extract-variable refactoring: in a simple statement whose value is a
    call, the first non-trivial positional argument is computed into a fresh
    local just before the statement.  Evaluation order is preserved because
    everything evaluated before that argument is pure."""

    def __init__(self) -> None:
        self.k = 0
        self.depth = 0

    def _fn(self, n):
        self.depth += 1
        self.generic_visit(n)
        self.depth -= 1
        return n
    visit_FunctionDef = visit_AsyncFunctionDef = _fn

    def visit_Lambda(self, n):
        return n

    def _block(self, body):
        out = []
        for st in body:
            call = None
            if self.depth and isinstance(st, (ast.Expr, ast.Assign,
                                              ast.Return)):
                v = st.value
                if isinstance(v, ast.Await):
                    v = v.value
                if isinstance(v, ast.Call) and _pure(v.func) and not any(
                        isinstance(a, ast.Starred) for a in v.args):
                    call = v
            if call is not None:
                for i, a in enumerate(call.args):
                    if _pure(a):
                        continue
                    if any(isinstance(x, (ast.NamedExpr, ast.Await, ast.Yield,
                                          ast.YieldFrom, ast.Lambda))
                           for x in ast.walk(a)):
                        break
                    self.k += 1
                    nm = f'_hoisted_{self.k}'
                    out.append(ast.Assign(
                        targets=[ast.Name(nm, ast.Store())], value=a,
                        lineno=st.lineno, col_offset=st.col_offset))
                    call.args[i] = ast.Name(nm, ast.Load())
                    break
            out.append(st)
        return out

    def generic_visit(self, node):
        super().generic_visit(node)
        for fld in ('body', 'orelse', 'finalbody'):
            b = getattr(node, fld, None)
            if isinstance(b, list) and b and isinstance(b[0], ast.stmt):
                setattr(node, fld, self._block(b))
        return node


def overlay(kind: str) -> dict[str, str]:
    src = SourceSet(ROOT)
    out = {}
    for rel in src.files():
        text = src.text(rel)
        if kind == 'unparse':
            new = ast.unparse(ast.parse(text)) + '\n'
        elif kind == 'annot':
            class A(ast.NodeTransformer):
                """every `name = v` inside a function gets an annotation;
                existing local annotations are dropped instead."""
                depth = 0
                banned: set = set()

                def _fn(self, n):
                    saved = self.banned
                    self.banned = {x for s in ast.walk(n) if isinstance(
                        s, (ast.Global, ast.Nonlocal)) for x in s.names}
                    self.depth += 1
                    self.generic_visit(n)
                    self.depth -= 1
                    self.banned = saved
                    return n
                visit_FunctionDef = visit_AsyncFunctionDef = _fn

                def visit_ClassDef(self, n):
                    saved, self.depth = self.depth, 0
                    self.generic_visit(n)
                    self.depth = saved
                    return n

                def visit_Assign(self, n):
                    if self.depth and len(n.targets) == 1 and isinstance(
                            n.targets[0], ast.Name) and n.targets[
                            0].id not in self.banned:
                        return ast.copy_location(ast.AnnAssign(
                            target=n.targets[0],
                            annotation=ast.Constant('object'),
                            value=n.value, simple=1), n)
                    return n

                def visit_AnnAssign(self, n):
                    if self.depth and isinstance(
                            n.target, ast.Name) and n.value is not None:
                        return ast.copy_location(ast.Assign(
                            targets=[n.target], value=n.value,
                            type_comment=None), n)
                    return n
            new = ast.unparse(ast.fix_missing_locations(
                A().visit(ast.parse(text)))) + '\n'
        elif kind == 'swap':
            class S(ast.NodeTransformer):
                """swap adjacent `a = e1; b = e2` when neither statement
                reads or writes what the other writes and both right-hand
                sides are call-free (no effects to reorder)."""

                def generic_visit(self, node):
                    super().generic_visit(node)
                    for fld in ('body', 'orelse', 'finalbody'):
                        b = getattr(node, fld, None)
                        if not (isinstance(b, list) and b
                                and isinstance(b[0], ast.stmt)):
                            continue
                        i = 0
                        while i + 1 < len(b):
                            if self._indep(b[i], b[i + 1]):
                                b[i], b[i + 1] = b[i + 1], b[i]
                                i += 2
                            else:
                                i += 1
                    return node

                @staticmethod
                def _indep(s1, s2):
                    def ok(s):
                        return (isinstance(s, ast.Assign)
                                and len(s.targets) == 1
                                and isinstance(s.targets[0], ast.Name)
                                and not any(isinstance(x, (
                                    ast.Call, ast.Await, ast.Yield,
                                    ast.NamedExpr, ast.Subscript,
                                    ast.Attribute, ast.BinOp, ast.Compare))
                                    for x in ast.walk(s.value)))
                    if not (ok(s1) and ok(s2)):
                        return False
                    n1 = {x.id for x in ast.walk(s1) if isinstance(
                        x, ast.Name)}
                    n2 = {x.id for x in ast.walk(s2) if isinstance(
                        x, ast.Name)}
                    return not (n1 & n2)
            new = ast.unparse(ast.fix_missing_locations(
                S().visit(ast.parse(text)))) + '\n'
        elif kind == 'guard':
            class G(ast.NodeTransformer):
                """guard clauses: a trailing `if X: body` (no else) at the
                end of a function body becomes `if not X: return` followed
                by the body; at the end of a loop body, `if not X:
                continue` followed by the body."""

                @staticmethod
                def _neg(t):
                    if isinstance(t, ast.UnaryOp) and isinstance(
                            t.op, ast.Not):
                        return t.operand
                    return ast.UnaryOp(ast.Not(), t)

                def _tail(self, body, leave):
                    last = body[-1]
                    if isinstance(last, ast.If) and not last.orelse:
                        g = ast.If(test=self._neg(last.test), body=[leave],
                                   orelse=[])
                        return body[:-1] + [ast.copy_location(
                            g, last)] + last.body
                    return body

                def _fn(self, n):
                    self.generic_visit(n)
                    n.body = self._tail(n.body, ast.Return(value=None))
                    return n
                visit_FunctionDef = visit_AsyncFunctionDef = _fn

                def _loop(self, n):
                    self.generic_visit(n)
                    n.body = self._tail(n.body, ast.Continue())
                    return n
                visit_For = visit_While = visit_AsyncFor = _loop
            new = ast.unparse(ast.fix_missing_locations(
                G().visit(ast.parse(text)))) + '\n'
        elif kind == 'flip':
            class F(ast.NodeTransformer):
                """`if X: A else: B` -> `if not X: B else: A` (elif chains
                are left alone)."""

                def visit_If(self, n):
                    self.generic_visit(n)
                    if n.orelse and not (len(n.orelse) == 1 and isinstance(
                            n.orelse[0], ast.If)):
                        if isinstance(n.test, ast.UnaryOp) and isinstance(
                                n.test.op, ast.Not):
                            n.test = n.test.operand
                        else:
                            n.test = ast.UnaryOp(ast.Not(), n.test)
                        n.body, n.orelse = n.orelse, n.body
                    return n

                def visit_IfExp(self, n):
                    self.generic_visit(n)
                    if isinstance(n.test, ast.UnaryOp) and isinstance(
                            n.test.op, ast.Not):
                        n.test = n.test.operand
                    else:
                        n.test = ast.UnaryOp(ast.Not(), n.test)
                    n.body, n.orelse = n.orelse, n.body
                    return n
            new = ast.unparse(ast.fix_missing_locations(
                F().visit(ast.parse(text)))) + '\n'
        elif kind == 'hoist':
            new = ast.unparse(ast.fix_missing_locations(
                _Hoister().visit(ast.parse(text)))) + '\n'
        elif kind == 'rename':
            new = rename_locals(text)
        elif kind == 'format':
            r = subprocess.run(
                ['/venv/bin/ruff', 'format', '--stdin-filename', rel, '-'],
                input=text, text=True, capture_output=True)
            if r.returncode != 0:
                continue
            new = r.stdout
        elif kind == 'logging':
            tree = ast.parse(text)

            class T(ast.NodeTransformer):
                def _fn(self, n):
                    self.generic_visit(n)
                    body = n.body
                    i = 1 if (body and isinstance(body[0], ast.Expr)
                              and isinstance(body[0].value, ast.Constant)
                              and isinstance(body[0].value.value, str)) else 0
                    stmt = ast.parse('_neutral_marker = 0').body[0]
                    n.body = body[:i] + [stmt] + body[i:]
                    return n
                visit_FunctionDef = visit_AsyncFunctionDef = _fn
            new = ast.unparse(ast.fix_missing_locations(T().visit(tree)))
            new += '\n'
        else:
            raise SystemExit(f'unknown kind {kind}')
        try:
            compile(new, rel, 'exec')
        except SyntaxError:
            continue
        if new != text:
            out[rel] = new
    return out


def run_one(args):
    pid, ov = args
    try:
        mod = importlib.import_module(f'sa.props.{pid}')
        ctx = Ctx(ROOT, ov, 'quick')
        rep = Report(pid, 'quick')
        mod.run(ctx, rep)
        known = {k['key'] for k in load_known()
                 if k.get('status') == 'known' and k['property'] == pid}
        v = [o for o in rep.violations() if o.key not in known]
        if not v and rep.floor_failures:
            return pid, 'ANALYSIS-ERROR', rep.floor_failures[:2]
        return pid, 'silent' if not v else 'ALARM', [
            f'{o.key} @{o.line}' for o in v[:4]]
    except AnalysisError as e:
        return pid, 'ANALYSIS-ERROR', [str(e)[:150]]
    except Exception as e:  # noqa
        return pid, 'CRASH', [repr(e)[:150]]


def main() -> int:
    kinds = [a for a in sys.argv[1:] if not a.startswith('C')] or [
        'unparse', 'logging', 'format']
    if kinds == ['all']:
        kinds = ['unparse', 'logging', 'format', 'rename', 'hoist', 'flip',
                 'annot', 'swap', 'guard']
    props = [a for a in sys.argv[1:] if a.startswith('C')] or PROPS
    bad = 0
    for kind in kinds:
        ov = overlay(kind)
        print(f'== {kind}: {len(ov)} files changed')
        with ProcessPoolExecutor(max_workers=8) as ex:
            for pid, outcome, info in ex.map(
                    run_one, [(p, ov) for p in props]):
                flag = '' if outcome == 'silent' else '  <<<'
                print(f'{kind:8s} {pid} {outcome}{flag} {info}')
                bad += outcome != 'silent'
    return 1 if bad else 0


if __name__ == '__main__':
    sys.exit(main())
