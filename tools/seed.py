#!/usr/bin/env python3
"""Seeded changes: confirm, keep and replay.

  tools/seed.py confirm <id> --from DIR --property Cxx --needs TEXT
                [--tests "tests/a tests/b ..."] [--summary TEXT]
      Confirms a candidate change in the scratch worktree /tmp/wt/seedtest
      (at /repo's HEAD): the patch applies, the package imports, the
      demonstration exits 1 with the patch and 0 without it, and the listed
      test paths pass with the patch applied.  Only then is it stored as
      /verif/seeded/<id>/{patch.diff,demo.py,meta.json} together with the
      list of checks that report it.

  tools/seed.py run [<id> ...]
      Applies each stored patch to the scratch worktree, runs all twenty
      quick checks against it (--root) and prints which fire.  Exit 1 if a
      seed is reported by no check of the property it breaks.

Nothing here touches /repo.  Tests and demonstrations that start a runtime
are run in a private network namespace (`unshare -rn`) because every
Compiler binds localhost:7472.
"""
from __future__ import annotations

import argparse
import json
import os
import shutil
import subprocess
import sys
import time
from concurrent.futures import ThreadPoolExecutor

WT = '/tmp/wt/seedtest'
VERIF = os.path.dirname(os.path.dirname(os.path.abspath(__file__)))
SEEDED = os.path.join(VERIF, 'seeded')
PROPS = [f'C{i:02d}' for i in range(1, 21)]
PY = '/venv/bin/python'


def sh(cmd: str, **kw) -> subprocess.CompletedProcess:
    return subprocess.run(cmd, shell=True, text=True, capture_output=True,
                          **kw)


def isolated(cmd: str) -> str:
    site = os.path.join(VERIF, 'tools', 'site4')  # caps Compiler() workers
    inner = f'ip link set lo up; cd {WT} && PYTHONPATH={WT}:{site} {cmd}'
    return f"unshare -rn sh -c '{inner}'"


def ensure_wt() -> str:
    head = sh('git -C /repo rev-parse HEAD').stdout.strip()
    if not os.path.isdir(WT):
        os.makedirs(os.path.dirname(WT), exist_ok=True)
        r = sh(f'git -C /repo worktree add --detach {WT} HEAD')
        if r.returncode:
            sys.exit(r.stderr)
    sh(f'git -C {WT} checkout -- . && git -C {WT} clean -fdq')
    sh(f'git -C {WT} checkout -q --detach {head}')
    sh(f'git -C {WT} checkout -- . && git -C {WT} clean -fdq')
    at = sh(f'git -C {WT} rev-parse HEAD').stdout.strip()
    dirty = sh(f'git -C {WT} status --porcelain').stdout.strip()
    if at != head or dirty:
        sys.exit(f'scratch worktree {WT} is not a clean checkout of {head}')
    return head


def apply(patch: str) -> bool:
    r = sh(f'git -C {WT} apply --whitespace=nowarn {patch}')
    if r.returncode:
        r = sh(f'git -C {WT} apply --3way --whitespace=nowarn {patch}')
        sh(f'git -C {WT} reset -q')
    if r.returncode:
        print(f'   patch does not apply: {r.stderr.strip()[:300]}')
    return r.returncode == 0


def reset() -> None:
    sh(f'git -C {WT} checkout -- . && git -C {WT} clean -fdq')


def run_check(pid: str) -> tuple[str, int, list[str]]:
    r = sh(f'{VERIF}/check {pid} --no-evidence --root {WT}', cwd=VERIF)
    out = r.stdout.splitlines()
    hits = []
    for i, l in enumerate(out):
        if l.startswith('VIOLATION') and i + 1 < len(out):
            hits.append(out[i + 1].strip())
        if l.startswith('ANALYSIS-ERROR'):
            hits.append(l)
    return pid, r.returncode, hits


def run_checks() -> dict[str, list[str]]:
    with ThreadPoolExecutor(max_workers=10) as ex:
        res = list(ex.map(run_check, PROPS))
    fired = {}
    for p, c, hits in res:
        if c == 1:
            fired[p] = hits
        elif c == 2:
            fired[p] = ['(analysis error) ' + (hits[0] if hits else '')]
    return fired


def run_demo(demo: str) -> tuple[int, str]:
    r = sh(isolated(f'timeout 600 {PY} {demo}'))
    tail = (r.stdout.strip().splitlines() or r.stderr.strip().splitlines()
            or ['?'])[-1]
    return r.returncode, tail[:160]


def confirm(a: argparse.Namespace) -> int:
    src = a.src
    patch = os.path.join(src, 'patch.diff')
    demo = os.path.join(src, 'demo.py')
    for p in (patch, demo):
        if not os.path.exists(p):
            print(f'{a.id}: missing {p}')
            return 1
    head = ensure_wt()
    ran: list[str] = []
    print(f'== {a.id} (from {src}) at {head[:7]}')
    c0, t0 = run_demo(demo)
    ran.append(f'demo on clean tree: exit {c0} ({t0})')
    print('   ', ran[-1])
    if not apply(patch):
        return 1
    stat = sh(f'git -C {WT} diff --stat').stdout.strip().splitlines()
    r = sh(isolated(f'{PY} -c "import bqskit, bqskit.compiler, bqskit.passes,'
                    f' bqskit.ext; print(bqskit.__file__)"'))
    ran.append(f'import with patch: exit {r.returncode}')
    ok = r.returncode == 0 and WT in r.stdout
    c1, t1 = run_demo(demo)
    ran.append(f'demo with patch: exit {c1} ({t1})')
    print('   ', ran[-1])
    ok = ok and c0 == 0 and c1 == 1
    tests_ok = True
    if a.tests:
        t = time.time()
        par = f'-n {a.jobs} ' if a.jobs > 1 else ''
        sel = f'-k "{a.k}" ' if a.k else ''
        cmd = (f'{PY} -m pytest -q -p no:cacheprovider -x --timeout=600 '
               f'{par}{sel}{a.tests}')
        r = sh(isolated(cmd))
        last = (r.stdout.strip().splitlines() or ['?'])[-1]
        ran.append(f'pytest {sel}{a.tests} with patch: exit {r.returncode} '
                   f'({last}) {time.time() - t:.0f}s')
        print('   ', ran[-1])
        tests_ok = r.returncode == 0
        if not tests_ok:
            print('\n'.join(r.stdout.splitlines()[-25:]))
    fired = run_checks()
    reset()
    for p, hits in fired.items():
        print(f'    FIRED {p}: {hits[0][:200] if hits else ""}')
    if not fired:
        print('    silent: no check reports this change')
    if not (ok and tests_ok):
        print(f'   NOT CONFIRMED: {a.id} (ok={ok} tests={tests_ok})')
        return 1
    dst = os.path.join(SEEDED, a.id)
    os.makedirs(dst, exist_ok=True)
    shutil.copy(patch, os.path.join(dst, 'patch.diff'))
    shutil.copy(demo, os.path.join(dst, 'demo.py'))
    notes = os.path.join(src, 'notes.md')
    if os.path.exists(notes):
        shutil.copy(notes, os.path.join(dst, 'notes.md'))
    meta = {
        'id': a.id,
        'property': a.property,
        'summary': a.summary or '',
        'files_changed': [s.strip() for s in stat[:-1]],
        'needs_to_manifest': a.needs,
        'origin': 'independent sub-agent given only the property text and '
                  'a scratch worktree',
        'confirmed_at_repo_commit': head,
        'ran': ran,
        'tests_with_patch': a.tests or '',
        'reported_by': {p: hits[:3] for p, hits in fired.items()},
    }
    with open(os.path.join(dst, 'meta.json'), 'w') as f:
        json.dump(meta, f, indent=1)
        f.write('\n')
    print(f'   kept as seeded/{a.id}')
    return 0


def run(a: argparse.Namespace) -> int:
    ids = a.ids or sorted(os.listdir(SEEDED))
    rc = 0
    rows = []
    for sid in ids:
        d = os.path.join(SEEDED, sid)
        if not os.path.exists(os.path.join(d, 'patch.diff')):
            continue
        meta = json.load(open(os.path.join(d, 'meta.json')))
        ensure_wt()
        if not apply(os.path.join(d, 'patch.diff')):
            rc = 1
            continue
        fired = run_checks()
        reset()
        own = meta['property'] in fired
        rows.append((sid, meta['property'], sorted(fired), own))
        print(f'{sid:10s} breaks {meta["property"]}: reported by '
              f'{", ".join(sorted(fired)) or "nothing"}'
              + ('' if own else '   <-- MISSED'))
        for p, hits in fired.items():
            for h in hits[:2]:
                print(f'      {p}: {h[:170]}')
        if not own:
            rc = 1
        if a.update:
            meta['reported_by'] = {p: h[:3] for p, h in fired.items()}
            with open(os.path.join(d, 'meta.json'), 'w') as f:
                json.dump(meta, f, indent=1)
                f.write('\n')
    print(f'{sum(1 for r in rows if r[3])}/{len(rows)} seeded changes '
          'reported by a check of the property they break')
    return rc


def main() -> int:
    ap = argparse.ArgumentParser()
    sub = ap.add_subparsers(dest='cmd', required=True)
    c = sub.add_parser('confirm')
    c.add_argument('id')
    c.add_argument('--from', dest='src', required=True)
    c.add_argument('--property', required=True)
    c.add_argument('--needs', required=True)
    c.add_argument('--summary')
    c.add_argument('--tests')
    c.add_argument('--k', help='pytest -k expression (e.g. "not detached": '
                   'the detached-server fixture times out on a loaded '
                   'machine whatever the source)')
    c.add_argument('--jobs', type=int, default=1,
                   help='xdist workers; only for tests that start no '
                        'Compiler (they would share port 7472)')
    r = sub.add_parser('run')
    r.add_argument('ids', nargs='*')
    r.add_argument('--update', action='store_true')
    a = ap.parse_args()
    return confirm(a) if a.cmd == 'confirm' else run(a)


if __name__ == '__main__':
    sys.exit(main())
