"""Test-harness helper only (used by tools/seed.py): on a loaded machine a
default Compiler() starts os.cpu_count() = 16 workers and some of them miss
their 12.7 s connect budget, which hangs the runtime's start-up whatever the
source under test.  Pretend there are 4 CPUs.  Neither tests nor package are
touched."""
import os

os.cpu_count = lambda: 4  # noqa: E731
